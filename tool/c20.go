package main

import (
	"fmt"
	"go/token"
	"go/types"
	"sort"
	"strings"

	"golang.org/x/tools/go/ssa"
)

func init() {
	register(&propDef{
		ID:          "C20",
		Title:       "Transport and plugin chain do not alter answers",
		Run:         runC20,
		Explanation: "Structural necessary conditions, decided on SSA: (guard) the question-count guard dominates the call into the handler chain, and front handlers are only built by Server.Start; (passthrough) every front handler forwards its own (w, r) unmodified to plugin.NextOrFailure with its own Next, the context being the one it got or WithMaxAnswer(ctx, its configured value), and never stores through r; (any) the ANY handler forwards iff the type is not ANY (and nothing else), and answers ANY itself with a one-element answer holding a *dns.HINFO, never reaching Next; (samemux) per listen address one serveMux is built inside the address loop around a max-answer handler constructed from that address's value, the same mux value goes to the UDP, TCP and TLS servers, and every Next link is set to the previous head of the chain which starts at the database handler; (trunc) size and scrub precede every write. Wire-level equality over transports is not decided.",
	})
}

func runC20(c *Ctx) {
	c20Guard(c, "C20.guard")
	c13QuestionGuarded(c, "C20.question-guarded")
	c20Constructors(c)
	c20Passthrough(c)
	c20Any(c)
	c20SameMux(c)
	c13WritePath(c, "C20")
	c20AnyOutermost(c)
	c20WhoamiExact(c)
}

// c20AnyOutermost implements C20.any-outermost: the chain is built inside out (each new handler's Next is the previous
// head), so the handler linked LAST is asked FIRST. The ANY refusal has to be asked before any handler that answers
// queries itself (whoami, the DoT TLSA responder): linked before them (round-5 seed c20j moved it "right in front of
// the database"), an ANY query for a name those handlers own gets their answer instead of the one HINFO record.
func c20AnyOutermost(c *Ctx) {
	rule := "C20.any-outermost"
	c.Rule(rule, "A2 ordering in (*Server).Start: no store that links an answering front handler (whoami.Handler.Next, dotTLSAHandler.Next) is reachable from the store that links the ANY handler (anyHandler.Next) within the set-up code that is not inside the per-address loop")
	start := c.Func("fbserver", "(*Server).Start")
	c.Examined(start)
	var anyNext *types.Var
	answering := map[*types.Var]string{}
	for _, fh := range frontHandlers(c) {
		switch fh.Name {
		case "fbserver.anyHandler":
			anyNext = fh.Next
		case "whoami.Handler", "fbserver.dotTLSAHandler":
			answering[fh.Next] = fh.Name
		}
	}
	anyStores := storesToField(start, anyNext)
	var bad []string
	n := 0
	for f, name := range answering {
		for _, st := range storesToField(start, f) {
			n++
			for _, a := range anyStores {
				if a.Block() == st.Block() {
					// same block: order of the instructions
					ia, is := -1, -1
					for i, in := range a.Block().Instrs {
						if in == ssa.Instruction(a) {
							ia = i
						}
						if in == ssa.Instruction(st) {
							is = i
						}
					}
					if ia < is {
						bad = append(bad, name)
					}
				} else if reachable(a.Block(), nil)[st.Block()] && !reachable(st.Block(), nil)[a.Block()] {
					bad = append(bad, name)
				}
			}
		}
	}
	sort.Strings(bad)
	c.Check(rule, fnName(start)+"|any-linked-after-answering-handlers", len(bad) == 0 && len(anyStores) > 0 && n > 0, start.Pos(), fmt.Sprintf("answering handlers linked after (i.e. asked before) the ANY refusal: %v", bad))
}

// c20Guard: the question-count guard (shared with C13.question).
func c20Guard(c *Ctx, rule string) {
	c.Rule(rule, "A2: in serveMux.ServeDNS the call into the plugin chain is dominated by len(req.Question) >= 1")
	fn := c.Func("fbserver", "(*serveMux).ServeDNS")
	c.Examined(fn)
	fQ := fieldByName(c, dnsPkg, "Msg", "Question")
	n := 0
	for _, ci := range callInstrs(fn) {
		cc := ci.Common()
		if !(cc.IsInvoke() && cc.Method.Name() == "ServeDNS") {
			continue
		}
		n++
		ok := hasFact(ci.Block(), func(v ssa.Value, truth bool) bool {
			b, isB := v.(*ssa.BinOp)
			if !isB {
				return false
			}
			ln := isBuiltinCall(b.X, "len")
			if ln == nil || !isFieldLoad(ln.Call.Args[0], fQ) {
				return false
			}
			k, isK := constInt(b.Y)
			if !isK {
				return false
			}
			switch b.Op {
			case token.LSS:
				return !truth && k == 1
			case token.GEQ:
				return truth && k == 1
			case token.GTR:
				return truth && k == 0
			case token.EQL:
				return !truth && k == 0
			case token.NEQ:
				return truth && k == 0
			case token.LEQ:
				return !truth && k == 0
			}
			return false
		})
		c.Check(rule, fnName(fn)+"|chain-call-guarded", ok, ci.Pos(), "front handlers index Question[0] directly: a message without a question must be answered with a failure before the chain is entered")
	}
	if n == 0 {
		c.Undecided(rule, fnName(fn)+"|chain-call", fn.Pos(), "no call into the plugin chain found")
	}
}

// frontHandlers: types whose ServeDNS has the plugin.Handler signature and that have a Next field.
type frontHandler struct {
	Name  string
	Serve *ssa.Function
	Next  *types.Var
	Ctor  *types.Func
}

func frontHandlers(c *Ctx) []frontHandler {
	specs := []struct{ pkg, typ, ctor string }{
		{"fbserver", "maxAnswerHandler", "newMaxAnswerHandler"},
		{"fbserver", "anyHandler", "newAnyHandler"},
		{"fbserver", "dotTLSAHandler", "newDotTLSA"},
		{"whoami", "Handler", "NewWhoami"},
	}
	var out []frontHandler
	for _, s := range specs {
		out = append(out, frontHandler{
			Name:  s.pkg + "." + s.typ,
			Serve: c.Func(s.pkg, "(*"+s.typ+").ServeDNS"),
			Next:  c.Field(s.pkg, s.typ, "Next"),
			Ctor:  c.TypesFunc(s.pkg, s.ctor),
		})
	}
	return out
}

func c20Constructors(c *Ctx) {
	rule := "C20.guard"
	start := c.Func("fbserver", "(*Server).Start")
	for _, fh := range frontHandlers(c) {
		var callers []string
		for _, fn := range c.OurFuncs() {
			if fn.Pkg.Pkg.Name() == "main" {
				continue
			}
			if len(callsTo(fn, func(f *types.Func) bool { return f == fh.Ctor })) > 0 {
				callers = append(callers, fnName(fn))
			}
		}
		sort.Strings(callers)
		ok := len(callers) == 1 && callers[0] == fnName(start)
		c.Check(rule, "constructor|"+fh.Ctor.Name()+"|only-Server.Start", ok, fh.Serve.Pos(), fmt.Sprintf("handlers that index Question[0] are only instantiated below a serveMux; callers: %v", callers))
	}
}

func isNextOrFailure(f *types.Func) bool {
	return f != nil && f.Pkg() != nil && f.Pkg().Path() == "github.com/coredns/coredns/plugin" && f.Name() == "NextOrFailure"
}

func c20Passthrough(c *Ctx) {
	rule := "C20.passthrough"
	c.Rule(rule, "SSA: in each front handler every pass-through is plugin.NextOrFailure(name, recv.Next, ctx', w, r) with w and r the function's own parameters and ctx' the context parameter or dnsserver.WithMaxAnswer(ctx parameter, recv.<field>); the handler never stores through r")
	withMax := c.TypesFunc("dnsserver", "WithMaxAnswer")
	for _, fh := range frontHandlers(c) {
		fn := fh.Serve
		c.Examined(fn)
		calls := callsTo(fn, isNextOrFailure)
		if len(calls) == 0 {
			c.Check(rule, fh.Name+"|forwards", false, fn.Pos(), "front handler never forwards to the next handler")
			continue
		}
		recv, ctx, w, r := fn.Params[0], fn.Params[1], fn.Params[2], fn.Params[3]
		for i, ci := range calls {
			a := ci.Common().Args
			k := fmt.Sprintf("%s|next#%d", fh.Name, i)
			only := func(v ssa.Value, p *ssa.Parameter) bool {
				srcs := sourcesOf(v)
				return len(srcs) == 1 && srcs[p]
			}
			c.Check(rule, k+"|same-writer", only(a[3], w), ci.Pos(), "the response writer handed on is the one received")
			c.Check(rule, k+"|same-request", only(a[4], r), ci.Pos(), "the request handed on is the one received")
			okNext := false
			if u, ok := unwrap(a[1]).(*ssa.UnOp); ok {
				if fa, ok := u.X.(*ssa.FieldAddr); ok && fieldOf(fa) == fh.Next && fa.X == ssa.Value(recv) {
					okNext = true
				}
			}
			c.Check(rule, k+"|own-next", okNext, ci.Pos(), "forwards to its own Next")
			okCtx := a[2] == ssa.Value(ctx)
			if !okCtx {
				if call, ok := a[2].(*ssa.Call); ok && calleeOf(call.Common()) == withMax && call.Call.Args[0] == ssa.Value(ctx) {
					if u, ok := unwrap(call.Call.Args[1]).(*ssa.UnOp); ok {
						if fa, ok := u.X.(*ssa.FieldAddr); ok && fa.X == ssa.Value(recv) {
							okCtx = true
						}
					}
				}
			}
			c.Check(rule, k+"|context", okCtx, ci.Pos(), "context is the one received, or it with this handler's configured max-answer")
		}
		// no store through r
		stores := 0
		for _, b := range fn.Blocks {
			for _, in := range b.Instrs {
				if st, ok := in.(*ssa.Store); ok {
					if _, isSpill := st.Addr.(*ssa.Alloc); isSpill {
						continue // the parameter itself being spilled for a closure
					}
					root, _ := splitRoot(pathOf(st.Addr))
					if root == r.Name() && pathOf(st.Addr) != "" {
						stores++
					} else if addrRootedAt(st.Addr, r) {
						stores++ // through a pointer into the request kept in a local (q := &r.Question[0]; q.Name = …)
					}
				}
			}
		}
		// calls that take r and may mutate it: SetReply(r) only reads r. Anything else in package dns on r as receiver is flagged.
		for _, ci := range callInstrs(fn) {
			f := calleeOf(ci.Common())
			if f == nil || f.Pkg() == nil || f.Pkg().Path() != dnsPkg || len(ci.Common().Args) == 0 || !sourcesOf(ci.Common().Args[0])[r] {
				continue
			}
			switch funcShort(f) {
			case "Msg.IsEdns0", "Msg.Copy", "Msg.String", "Msg.Len":
			default:
				stores++
			}
		}
		c.Check(rule, fh.Name+"|request-not-modified", stores == 0, fn.Pos(), "the request is handed on exactly as received")
	}
	c.Floor(rule, 16)
}

func c20Any(c *Ctx) {
	rule := "C20.any"
	c.Rule(rule, "in anyHandler.ServeDNS: every forward to Next is reached exactly under Qtype != ANY (no other condition), every WriteMsg under Qtype == ANY; the answer written is a one-element slice holding a *dns.HINFO")
	fn := c.Func("fbserver", "(*anyHandler).ServeDNS")
	c.Examined(fn)
	fQtype := fieldByName(c, dnsPkg, "Question", "Qtype")
	isQtypeCmp := func(v ssa.Value) (eq bool, ok bool) {
		b, isB := v.(*ssa.BinOp)
		if !isB || (b.Op != token.EQL && b.Op != token.NEQ) {
			return false, false
		}
		k, isK := constInt(b.Y)
		if !isK || k != 255 {
			return false, false
		}
		u, isU := unwrap(b.X).(*ssa.UnOp)
		if !isU {
			return false, false
		}
		fa, isFA := u.X.(*ssa.FieldAddr)
		if !isFA || fieldOf(fa) != fQtype {
			return false, false
		}
		return b.Op == token.EQL, true
	}
	for i, ci := range callsTo(fn, isNextOrFailure) {
		// all predecessor edges into the block must carry "Qtype != ANY"; and the block must be entered directly from that test
		ok := false
		facts := factsAt(ci.Block())
		for _, f := range facts {
			if eq, isQ := isQtypeCmp(f.V); isQ && (eq != f.Truth) {
				ok = true
			}
		}
		c.Check(rule, fmt.Sprintf("%s|next#%d|only-when-not-ANY", fnName(fn), i), ok, ci.Pos(), "a query is forwarded to the database exactly when its type is not ANY (a weaker condition lets ANY queries through; the fact must dominate the forward)")
	}
	// the handler and the same-receiver helpers it calls directly
	helpers := map[*ssa.Function][]ssa.CallInstruction{}
	for _, ci := range callInstrs(fn) {
		if sf := ci.Common().StaticCallee(); sf != nil && sf.Blocks != nil && sf.Signature.Recv() != nil && len(ci.Common().Args) > 0 && ci.Common().Args[0] == ssa.Value(fn.Params[0]) {
			helpers[sf] = append(helpers[sf], ci)
		}
	}
	underANY := func(b *ssa.BasicBlock) bool {
		for _, f := range factsAt(b) {
			if eq, isQ := isQtypeCmp(f.V); isQ && (eq == f.Truth) {
				return true
			}
		}
		return false
	}
	nw := 0
	scope := []*ssa.Function{fn}
	for h := range helpers {
		scope = append(scope, h)
		c.Examined(h)
	}
	sort.Slice(scope, func(i, j int) bool { return fnName(scope[i]) < fnName(scope[j]) })
	for _, f := range scope {
		for _, ci := range callInstrs(f) {
			cc := ci.Common()
			if !(cc.IsInvoke() && cc.Method.Name() == "WriteMsg") {
				continue
			}
			nw++
			ok := false
			if f == fn {
				ok = underANY(ci.Block())
			} else {
				ok = len(helpers[f]) > 0
				for _, site := range helpers[f] {
					if !underANY(site.Block()) {
						ok = false
					}
				}
				if len(callsTo(f, isNextOrFailure)) > 0 {
					ok = false
				}
			}
			c.Check(rule, fmt.Sprintf("%s|write#%d|only-when-ANY", fnName(fn), nw), ok, ci.Pos(), "the synthesized answer is written only for ANY queries")
		}
	}
	if nw == 0 {
		c.Check(rule, fnName(fn)+"|write", false, fn.Pos(), "the ANY handler never answers")
	}
	// answer literal
	fAnswer := fieldByName(c, dnsPkg, "Msg", "Answer")
	hinfoT := namedType(c, dnsPkg, "HINFO")
	okLit := false
	for _, f := range scope {
		for _, st := range storesToField(f, fAnswer) {
			sl, isSl := st.Val.(*ssa.Slice)
			if !isSl {
				continue
			}
			arr, isA := sl.X.(*ssa.Alloc)
			if !isA {
				continue
			}
			at, isArr := arr.Type().(*types.Pointer).Elem().(*types.Array)
			if !isArr || at.Len() != 1 {
				okLit = false
				break
			}
			for v := range backSlice(arr, nil) {
				if mi, isMI := v.(*ssa.MakeInterface); isMI {
					if p, isP := mi.X.Type().(*types.Pointer); isP && types.Identical(p.Elem(), hinfoT) {
						okLit = true
					}
				}
			}
		}
	}
	c.Check(rule, fnName(fn)+"|answer-is-one-HINFO", okLit, fn.Pos(), "RFC 8482: a single synthesized HINFO record and nothing from the database")
}

func c20SameMux(c *Ctx) {
	rule := "C20.samemux"
	c.Rule(rule, "in Server.Start: the serveMux and the max-answer handler are constructed inside the loop over listen addresses, the max-answer value being that address's configured one and written nowhere else; the handler value passed to the UDP, TCP and TLS server constructors of an address is that one mux; every store to a Next field installs the previous head of the chain, which starts at the database handler")
	start := c.Func("fbserver", "(*Server).Start")
	c.Examined(start)
	muxT := c.Named("fbserver", "serveMux")
	var muxes []*ssa.Alloc
	for _, b := range start.Blocks {
		for _, in := range b.Instrs {
			if a, ok := in.(*ssa.Alloc); ok && types.Identical(a.Type().(*types.Pointer).Elem(), muxT) {
				muxes = append(muxes, a)
			}
		}
	}
	c.Check(rule, fnName(start)+"|one-mux-construction", len(muxes) == 1, start.Pos(), fmt.Sprintf("%d serveMux constructions", len(muxes)))
	newMax := c.TypesFunc("fbserver", "newMaxAnswerHandler")
	maxCalls := callsTo(start, func(f *types.Func) bool { return f == newMax })
	// the range over IPAns
	var rng *ssa.Range
	fIPAns := c.Field("fbserver", "ServerConfig", "IPAns")
	for _, b := range start.Blocks {
		for _, in := range b.Instrs {
			if r, ok := in.(*ssa.Range); ok && isFieldLoad(r.X, fIPAns) {
				rng = r
			}
		}
	}
	if rng == nil {
		c.Undecided(rule, fnName(start)+"|address-loop", start.Pos(), "loop over the configured listen addresses not found")
		return
	}
	// loop body = blocks dominated by the block that extracts from Next(rng) with ok == true
	var next *ssa.Next
	for _, r := range *rng.Referrers() {
		if n, ok := r.(*ssa.Next); ok {
			next = n
		}
	}
	inLoop := func(b *ssa.BasicBlock) bool {
		return next != nil && next.Block().Dominates(b) && b != next.Block() && inCycle(b)
	}
	okMax := len(maxCalls) == 1 && inLoop(maxCalls[0].Block())
	if okMax {
		// argument is the map value of this iteration
		okArg := false
		for s := range sourcesOf(maxCalls[0].Common().Args[0]) {
			if ex, ok := s.(*ssa.Extract); ok && ex.Tuple == ssa.Value(next) && ex.Index == 2 {
				okArg = true
			}
		}
		okMax = okArg
	}
	c.Check(rule, fnName(start)+"|max-answer-handler-per-address", okMax, start.Pos(), "each listen address gets its own max-answer handler built from that address's configured value")
	// maxAnswer field written only by its constructor
	fMax := c.Field("fbserver", "maxAnswerHandler", "maxAnswer")
	var writers []string
	for _, fn := range c.OurFuncs("fbserver") {
		if len(storesToField(fn, fMax)) > 0 {
			writers = append(writers, fnName(fn))
		}
	}
	c.Check(rule, "maxAnswerHandler.maxAnswer|written-only-by-constructor", len(writers) == 1 && writers[0] == "fbserver.newMaxAnswerHandler", start.Pos(), fmt.Sprintf("writers: %v (a shared handler mutated per address gives every listener the last address's value)", writers))
	if len(muxes) == 1 {
		mux := muxes[0]
		c.Check(rule, fnName(start)+"|mux-per-address", inLoop(mux.Block()), mux.Pos(), "the mux is built per listen address")
		// what goes into the mux: the max-answer handler of this iteration, possibly wrapped
		fDef := c.Field("fbserver", "serveMux", "defaultHandler")
		okDef := true
		nst := 0
		for _, st := range storesToField(start, fDef) {
			nst++
			hit := false
			for v := range backSlice(st.Val, nil) {
				if len(maxCalls) == 1 {
					if ex, ok := v.(*ssa.Extract); ok && ex.Tuple == ssa.Value(maxCalls[0].(*ssa.Call)) {
						hit = true
					}
				}
			}
			if !hit {
				okDef = false
			}
			// ... and it was wrapped in THIS iteration: every call on the way from the max-answer handler to the
			// stored value dominates the store (a wrapper built in an earlier iteration, or only on the first one,
			// still points at that iteration's max-answer handler)
			for v := range backSlice(st.Val, nil) {
				call, isCall := v.(*ssa.Call)
				if !isCall || len(maxCalls) != 1 || call == maxCalls[0].(*ssa.Call) {
					continue
				}
				fromMax := false
				for w := range backSlice(call, nil) {
					if ex, ok := w.(*ssa.Extract); ok && ex.Tuple == ssa.Value(maxCalls[0].(*ssa.Call)) {
						fromMax = true
					}
				}
				if fromMax && !instrDominates(call, st) {
					okDef = false
				}
			}
		}
		c.Check(rule, fnName(start)+"|mux-wraps-this-address-handler", okDef && nst > 0, mux.Pos(), "the mux's chain starts at this address's max-answer handler (directly or through the DNSSEC wrapper built from it)")
		// same mux to all transports
		inits := map[string]bool{"initUDPServer": true, "initTCPServer": true, "initTLSServer": true}
		seen := 0
		okSame := true
		for _, ci := range callInstrs(start) {
			sf := ci.Common().StaticCallee()
			if sf == nil || !inits[sf.Name()] {
				continue
			}
			seen++
			h := ci.Common().Args[2]
			good := false
			for s := range sourcesOf(unwrap(h)) {
				if s == ssa.Value(mux) {
					good = true
				} else {
					good = false
					break
				}
			}
			if !good {
				okSame = false
			}
		}
		c.Check(rule, fnName(start)+"|same-mux-for-udp-tcp-tls", okSame && seen == 3, mux.Pos(), fmt.Sprintf("%d transport constructors examined; each gets the one mux of its address", seen))
	}
	// chain links
	fDb := c.Field("fbserver", "Server", "db")
	isHead := func(v ssa.Value, depth int) bool { return true }
	_ = isHead
	nlinks := 0
	okLinks := true
	var badLinks []string
	for _, fh := range frontHandlers(c) {
		for _, st := range storesToField(start, fh.Next) {
			nlinks++
			// sources: MakeInterface(load srv.db) or MakeInterface(front handler pointer)
			for s := range sourcesOf(st.Val) {
				if s == nil {
					okLinks = false
					badLinks = append(badLinks, "possibly unassigned at "+c.relPos(st.Pos()))
					continue
				}
				if isFieldLoad(s, fDb) {
					continue
				}
				isFront := false
				if call, _ := callOfValue(s); call != nil {
					for _, g := range frontHandlers(c) {
						if calleeOf(call.Common()) == g.Ctor {
							isFront = true
						}
					}
				}
				if !isFront {
					okLinks = false
					badLinks = append(badLinks, fmt.Sprintf("%v (%T) at %s", s, s, c.relPos(st.Pos())))
					c.Note("chain link source not understood: %v at %s", s, c.relPos(st.Pos()))
				}
			}
		}
	}
	c.Check(rule, fnName(start)+"|chain-links", okLinks && nlinks >= 4, start.Pos(), fmt.Sprintf("%d Next links; each points to the database handler or to a front handler placed before it; not understood: %v", nlinks, badLinks))
	c.Floor(rule, 6)
}

// addrRootedAt: the address is reached from root by field / element selection and loads only, possibly through local
// variables that hold such a pointer.
func addrRootedAt(addr ssa.Value, root ssa.Value) bool {
	seen := map[ssa.Value]bool{}
	var walk func(v ssa.Value, depth int) bool
	walk = func(v ssa.Value, depth int) bool {
		if v == root {
			return true
		}
		if depth > 16 || seen[v] {
			return false
		}
		seen[v] = true
		switch x := v.(type) {
		case *ssa.FieldAddr:
			return walk(x.X, depth+1)
		case *ssa.IndexAddr:
			return walk(x.X, depth+1)
		case *ssa.Slice:
			return walk(x.X, depth+1)
		case *ssa.UnOp:
			if x.Op == token.MUL {
				return walk(x.X, depth+1)
			}
		case *ssa.Phi:
			for _, e := range x.Edges {
				if walk(e, depth+1) {
					return true
				}
			}
		case *ssa.Alloc:
			// a local that holds a pointer / slice: what was stored into it
			if x.Referrers() == nil {
				return false
			}
			switch x.Type().(*types.Pointer).Elem().Underlying().(type) {
			case *types.Pointer, *types.Slice:
			default:
				return false
			}
			for _, r := range *x.Referrers() {
				if st, ok := r.(*ssa.Store); ok && st.Addr == x && walk(st.Val, depth+1) {
					return true
				}
			}
		}
		return false
	}
	return walk(addr, 0)
}

// c20WhoamiExact implements C20.whoami-exact. The whoami handler sits in front of the database and answers queries for
// ONE configured name itself; every other name must reach the database handler unchanged. If the gate is anything
// looser than equality with the configured name (round-6 seed c20m: strings.HasSuffix, "to allow cache-busting
// labels"), names of the data file that merely end in that string are answered by whoami instead of from the
// database. Decided on SSA in (*whoami.Handler).ServeDNS: the value of the configured-domain field is an operand of
// at least one string equality (== / != / strings.EqualFold) and of no partial match (HasSuffix, HasPrefix,
// Contains*, Index*, dns.IsSubDomain, dns.CompareDomainName).
func c20WhoamiExact(c *Ctx) {
	rule := "C20.whoami-exact"
	c.Rule(rule, "A8 on SSA in (*whoami.Handler).ServeDNS: the configured whoami domain is compared with the question name by equality only; no prefix/suffix/sub-domain match takes it as an argument")
	fn := c.Func("whoami", "(*Handler).ServeDNS")
	fDom := c.Field("whoami", "Handler", "whoamiDomain")
	c.Examined(fn)
	fromDom := func(v ssa.Value) bool {
		for x := range backSlice(v, nil) {
			if u, ok := x.(*ssa.UnOp); ok && u.Op == token.MUL {
				if fa, ok := u.X.(*ssa.FieldAddr); ok && fieldOf(fa) == fDom {
					return true
				}
			}
		}
		return false
	}
	eq := 0
	var partial []string
	for _, b := range fn.Blocks {
		for _, in := range b.Instrs {
			switch x := in.(type) {
			case *ssa.BinOp:
				if (x.Op == token.EQL || x.Op == token.NEQ) && isStringType(x.X.Type()) && (fromDom(x.X) || fromDom(x.Y)) {
					eq++
				}
			case *ssa.Call:
				f := calleeOf(x.Common())
				if f == nil || f.Pkg() == nil {
					continue
				}
				uses := false
				for _, a := range x.Common().Args {
					if isStringType(a.Type()) && fromDom(a) {
						uses = true
					}
				}
				if !uses {
					continue
				}
				nm := f.Name()
				switch {
				case nm == "EqualFold" || nm == "Equal":
					eq++
				case strings.HasPrefix(nm, "HasSuffix"), strings.HasPrefix(nm, "HasPrefix"), strings.HasPrefix(nm, "Contains"), strings.HasPrefix(nm, "Index"), strings.HasPrefix(nm, "LastIndex"), nm == "IsSubDomain", nm == "CompareDomainName", strings.HasPrefix(nm, "TrimSuffix"), strings.HasPrefix(nm, "CutSuffix"):
					partial = append(partial, fmt.Sprintf("%s.%s at %s", f.Pkg().Name(), nm, c.relPos(x.Pos())))
				}
			}
		}
	}
	c.Check(rule, fnName(fn)+"|gate-is-equality", eq > 0 && len(partial) == 0, fn.Pos(), fmt.Sprintf("%d equality comparisons with the configured domain; partial matches: %v", eq, partial))
}

func isStringType(t types.Type) bool {
	b, ok := t.Underlying().(*types.Basic)
	return ok && b.Info()&types.IsString != 0
}
