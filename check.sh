#!/bin/bash
# ./check.sh <property-id> [quick|thorough]   |   ./check.sh --replay <file>   |   ./check.sh selftest
# Static checks only: loads /repo/dnsrocks' current working tree (syntax + types + SSA), never runs it.
export GOFLAGS=-mod=mod GOPROXY=off GOSUMDB=off GOTOOLCHAIN=local GOWORK=off
here=$(cd "$(dirname "$0")" && pwd)
bin="$here/bin/dnsverif"
build() {
  (cd "$here/tool" && go build -o "$bin" .) || { echo "UNDECIDED: cannot build the checker"; exit 2; }
}
# rebuild the checker if it is missing or older than its sources
if [ ! -x "$bin" ] || [ -n "$(find "$here/tool" \( -name '*.go' -o -name '*.txt' \) -newer "$bin" -print -quit)" ]; then build; fi
case "$1" in
  --replay) exec "$bin" -replay "$2" -verif "$here" ;;
  selftest) shift; exec "$bin" -selftest -verif "$here" "$@" ;;
  "") echo "usage: $0 <id> [quick|thorough]"; exit 2 ;;
esac
id=$1; tier=${2:-${VERIF_TIER:-quick}}
exec "$bin" -prop "$id" -tier "$tier" -verif "$here"
