#!/usr/bin/env python3
"""Refreshes the commit hashes of 'fixed' entries in known_findings.json from /repo's git log (by finding id -> commit subject)."""
import json, subprocess
subj = {"F9a":"fix: take reloadMu in FBDNSDB.ValidateDbKey","F9b":"fix: read the served DB path under reloadMu in the DB watcher","F9c":"fix: access IteratorPool.enabled atomically","F1":"fix: do not close the served backend when validation fails after a same-path reload","F2":"fix: do not pop a label from the root name when re-evaluating a DS query","F3":"fix: compare the remaining name length, not the full name, at the zone border of the sorted reader","F4":"fix: an exact get must not be served from a closest-key cache entry of another key","F7":"fix: never match an IPv6 subnet for an IPv4 client subnet in the CDB driver","F13":"fix: ignore a closest key that is not a range point of the requested map","F6":"fix: print the wildcard prefix of SVCB/HTTPS records","F10":"fix: sliding window cleaner dropped live samples","F11":"fix: a destroyed DB hands out no readers, is not reloaded or asked for stats, and is closed once","F14":"fix: load the initial DB under reloadMu and refuse to reload before it is loaded","F8":"fix: do not cache an answer computed on a DB generation that a reload has replaced","F5":"fix: closest-key map lookup when the wildcard map of the queried name itself is the closest key","F15":"fix: mask the client address with its prefix length before the range point search","F12":"fix: only a zero-length prefix is a default route in the rearranger","F16":"fix: batch compiler deadlocked with BatchNumParallel == 0","F17":"fix: try the root wildcard map last in the closest-key map lookup","F18":"fix: look an IPv4-mapped IPv6 client subnet up as the IPv4 subnet it is","F19":"fix: make the response cache key fixed-width for the query type and class","F20":"fix: read whole numbers in cdb Dump","F21":"fix: echo the client subnet option in REFUSED responses"}
log = subprocess.run(['git','-C','/repo','log','--format=%h %s'],capture_output=True,text=True).stdout.splitlines()
h = {l.split(' ',1)[1]: l.split(' ',1)[0] for l in log}
kf = json.load(open('/verif/known_findings.json'))
for f in kf['findings']:
    if f.get('kind') == 'fixed' and f.get('id') in subj:
        new = h[subj[f['id']]]
        old = f.get('commit') or 'COMMIT'
        f['what'] = f['what'].replace(old, new) if old in f['what'] else f['what']
        f['commit'] = new
json.dump(kf, open('/verif/known_findings.json','w'), indent=1)
print("ok", len(kf['findings']))
