#!/bin/bash
# run_seed.sh <dir-with-patch.diff> : applies the patch to /repo, runs every registered property check (one load), reverts.
d=$1
cd /repo || exit 2
if [ -n "$(git status --porcelain)" ]; then echo "/repo is dirty"; exit 2; fi
if ! git apply --3way $d/patch.diff 2>/dev/null; then git apply $d/patch.diff || { echo "patch does not apply"; exit 2; }; fi
/verif/bin/dnsverif -prop all -no-evidence -verif /verif 2>&1 | grep -E "VIOLATION|UNDECIDED|: C[0-9][0-9]\.[a-z0-9-]+: " | grep -v "^VIOLATION" | cut -c1-400
git reset -q --hard HEAD
git status --porcelain | head -3
