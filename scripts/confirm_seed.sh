#!/bin/bash
# confirm_seed.sh <seed-out-dir (contains patch.diff, zz_demo_*_test.go, README.md)> <name>
# Confirms in a scratch worktree of /repo HEAD: patch applies, builds, demo FAILS with it, existing suite passes with it, demo PASSES without it.
# Writes <seed-out-dir>/confirm.log and prints a one-line verdict.
export GOFLAGS=-mod=mod GOPROXY=off GOSUMDB=off GOTOOLCHAIN=local; unset GOWORK
src=$1; name=$2
wt=/tmp/confirm/$name
log=$src/confirm.log
: > $log
rm -rf $wt; mkdir -p /tmp/confirm
git -C /repo worktree add -q --detach $wt HEAD >>$log 2>&1 || { echo "$name: WORKTREE-FAILED"; exit 1; }
cleanup() { git -C /repo worktree remove --force $wt >/dev/null 2>&1; }
trap cleanup EXIT
cd $wt
if ! git apply --3way $src/patch.diff >>$log 2>&1; then
  if ! git apply $src/patch.diff >>$log 2>&1; then echo "$name: PATCH-DOES-NOT-APPLY"; exit 1; fi
fi
git diff HEAD --stat >>$log 2>&1
# demo files: find destination from README or place by package clause
demos=$(find $src -name 'zz_demo_*_test.go')
declare -A dest
for d in $demos; do
  pkg=$(grep -m1 '^package ' $d | awk '{print $2}')
  # destination: look for a hint in README, else search dir by package name
  hint=$(grep -o "dnsrocks/[a-zA-Z0-9_/.-]*$(basename $d)" $src/README.md | head -1)
  if [ -z "$hint" ]; then
    sub=$(dirname ${d#$src/})
    if [ "$sub" != "." ] && [ -d dnsrocks/dnsdata/$sub ]; then hint=dnsrocks/dnsdata/$sub/$(basename $d); fi
    if [ "$sub" = "dnsdata" ]; then hint=dnsrocks/dnsdata/$(basename $d); fi
  fi
  if [ -z "$hint" ]; then
    dir=$(grep -rl --include=*.go "^package ${pkg%_test}\$" dnsrocks | grep -v zz_demo | head -1 | xargs dirname)
    hint=$dir/$(basename $d)
  fi
  dest[$d]=$hint
  cp $d $hint
  echo "demo $d -> $hint" >>$log
done
pkgs=$(for d in $demos; do echo ./$(dirname ${dest[$d]#dnsrocks/})/; done | sort -u | tr '\n' ' ')
cd dnsrocks
go build -ldflags=-checklinkname=0 ./... >>$log 2>&1 || { echo "$name: BUILD-FAILED-WITH-PATCH"; exit 1; }
echo "== demo with patch ($pkgs)" >>$log
go test -vet=off -count=1 -ldflags=-checklinkname=0 -run 'Demo' $pkgs >>$log 2>&1; demo_with=$?
echo "== suite with patch" >>$log
suite=1
for try in 1 2 3; do
  go test -vet=off -count=1 -ldflags=-checklinkname=0 -skip 'Demo' ./... >$log.suite 2>&1; suite=$?
  grep -v "no test files" $log.suite | tail -30 >>$log
  [ $suite = 0 ] && break
done
rm -f $log.suite
cd $wt && git reset -q --hard HEAD && git status --short | grep -v zz_demo >>$log
cd dnsrocks
echo "== demo without patch" >>$log
go test -vet=off -count=1 -ldflags=-checklinkname=0 -run 'Demo' $pkgs >>$log 2>&1; demo_without=$?
v=CONFIRMED
[ $demo_with = 0 ] && v="NOT-CONFIRMED(demo passes with patch)"
[ $suite != 0 ] && v="NOT-CONFIRMED(suite fails with patch)"
[ $demo_without != 0 ] && v="NOT-CONFIRMED(demo fails without patch)"
echo "$name: $v demo_with=$demo_with suite=$suite demo_without=$demo_without"
echo "$name: $v" >>$log
