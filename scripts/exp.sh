#!/bin/bash
# exp.sh <dir-with-patch.diff> [props]: apply the patch in the experiment worktree /tmp/exp (never /repo) and run the checks there
d=$1; props=${2:-all}
[ -d /tmp/exp ] || git -C /repo worktree add -q --detach /tmp/exp HEAD
git -C /tmp/exp checkout -q -- . && git -C /tmp/exp clean -fdq && git -C /tmp/exp checkout -q --detach $(git -C /repo rev-parse HEAD)
git -C /tmp/exp apply $d/patch.diff || { echo "patch does not apply"; exit 2; }
/verif/bin/dnsverif -repo /tmp/exp/dnsrocks -prop $props -no-evidence 2>&1 | grep -E "UNDECIDED|: C[0-9][0-9]\.[a-z0-9-]+: |rror" | grep -v "^VIOLATION" | cut -c1-${CUT:-400}
