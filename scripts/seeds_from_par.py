#!/usr/bin/env python3
"""seeds_from_par.py <detail-file written by par_eval.py (DETAIL=…)>: record, in seeded/<id>/meta.json, what the checks
reported for each seeded change (same 'evaluation' block as `seeds.py eval`, but from the parallel run in scratch
worktrees). Then `seeds.py table > seeded/TABLE.md`."""
import json, os, re, sys
V = '/verif'
cur = None; data = {}
for line in open(sys.argv[1], errors='replace'):
    m = re.match(r'^== (\S+) ?(.*)$', line)
    if m:
        cur = m.group(1); data[cur] = {'props': m.group(2).split(), 'lines': []}
    elif cur and line.startswith('   '):
        data[cur]['lines'].append(line.strip())
n = 0
for d, v in data.items():
    if not d.startswith(V + '/seeded/'): continue
    mp = d + '/meta.json'
    if not os.path.exists(mp): continue
    meta = json.load(open(mp))
    props = [p for p in v['props'] if re.match(r'^C\d\d$', p)]
    rules = []
    for l in v['lines']:
        m = re.match(r'^(?:UNDECIDED: )?\S+: (C\d\d\.[a-z0-9-]+): (.*?): ', l)
        if m: rules.append((('undecided ' if l.startswith('UNDECIDED') else '') + m.group(1) + '|' + m.group(2))[:200])
    own = meta['property']
    meta['evaluation'] = {'checks_that_fail': props, 'own_property_check_fails': own in props, 'obligations': sorted(set(rules)),
                          'verdict': 'caught' if own in props else ('caught-by-other-property' if props else 'missed')}
    json.dump(meta, open(mp, 'w'), indent=1); n += 1
print('updated', n)
