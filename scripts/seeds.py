#!/usr/bin/env python3
"""seeds.py import <seedout-dir>   : copy confirmed seeded changes into /verif/seeded/<id>/
   seeds.py eval [id...]          : apply each seeded patch to /repo, run every registered check once, revert, record what fired
   seeds.py table                 : print the catch table (markdown)"""
import json, os, re, shutil, subprocess, sys, glob
V = '/verif'; R = '/repo'
def sh(cmd, **kw): return subprocess.run(cmd, shell=True, capture_output=True, text=True, **kw)

def do_import(src):
    for d in sorted(glob.glob(src + '/c*/[a-z]')):
        sid = os.path.basename(os.path.dirname(d)) + os.path.basename(d)
        log = open(d + '/confirm.log', errors='replace').read() if os.path.exists(d + '/confirm.log') else ''
        if not log.strip().endswith('CONFIRMED'):
            print('skip (not confirmed):', sid); continue
        out = f'{V}/seeded/{sid}'; os.makedirs(out, exist_ok=True)
        shutil.copy(d + '/patch.diff', out + '/patch.diff')
        demos = {}
        for m in re.finditer(r'^demo (\S+) -> (\S+)$', log, re.M):
            # Go must not see these as part of any package under /verif: keep them with a .txt suffix
            name = os.path.basename(m.group(1))
            shutil.copy(m.group(1), f'{out}/{name}.txt')
            demos[name + '.txt'] = m.group(2)
        if os.path.exists(d + '/README.md'): shutil.copy(d + '/README.md', out + '/README.md')
        meta = {}
        if os.path.exists(out + '/meta.json'): meta = json.load(open(out + '/meta.json'))
        readme = open(d + '/README.md').read() if os.path.exists(d + '/README.md') else ''
        title = readme.strip().splitlines()[0].lstrip('# ').strip() if readme.strip() else sid
        need = ''
        m = re.search(r'^##+ *What it needs[^\n]*\n(.*?)(?=^##|\Z)', readme, re.M | re.S)
        if m: need = ' '.join(m.group(1).split())[:700]
        meta.update({
            'id': sid, 'property': 'C' + sid[1:3], 'title': title, 'needs_to_manifest': need,
            'patch': 'patch.diff', 'demonstration': demos,
            'ported': os.path.exists(d + '/patch.orig.diff'),
            'confirmed': {'how': 'scripts/confirm_seed.sh in a scratch worktree of /repo HEAD: patch applies and builds; demonstration FAILS with the patch; the whole repository test suite passes with the patch; demonstration PASSES without the patch',
                          'repo_head': sh(f'git -C {R} rev-parse --short HEAD').stdout.strip(), 'verdict': 'CONFIRMED'},
            'origin': 'written by a fresh sub-agent that saw only the property text and a scratch worktree of /repo, never /verif',
        })
        json.dump(meta, open(out + '/meta.json', 'w'), indent=1)
        print('imported', sid)

def do_eval(ids):
    if sh(f'git -C {R} status --porcelain').stdout.strip():
        print('/repo is dirty'); sys.exit(2)
    dirs = sorted(glob.glob(f'{V}/seeded/*/'))
    for d in dirs:
        sid = os.path.basename(d.rstrip('/'))
        if ids and sid not in ids: continue
        meta = json.load(open(d + 'meta.json'))
        r = sh(f'git -C {R} apply {d}patch.diff')
        if r.returncode != 0:
            meta['evaluation'] = {'error': 'patch does not apply: ' + r.stderr[:200]}
        else:
            out = sh(f'{V}/bin/dnsverif -prop all -no-evidence -verif {V}').stdout
            props = sorted(set(re.findall(r'^VIOLATION property=(C\d\d)', out, re.M)))
            rules = []
            for line in out.splitlines():
                m = re.match(r'^(?:UNDECIDED: )?\S+: (C\d\d\.[a-z0-9-]+): (.*?): ', line)
                if m and not line.startswith('VIOLATION'):
                    rules.append((('undecided ' if line.startswith('UNDECIDED') else '') + m.group(1) + '|' + m.group(2))[:200])
            own = meta['property']
            meta['evaluation'] = {
                'checks_that_fail': props, 'own_property_check_fails': own in props,
                'obligations': sorted(set(rules)),
                'verdict': 'caught' if own in props else ('caught-by-other-property' if props else 'missed'),
            }
        sh(f'git -C {R} checkout -- . && git -C {R} clean -fdq -- dnsrocks')
        json.dump(meta, open(d + 'meta.json', 'w'), indent=1)
        print(sid, meta['evaluation'].get('verdict'), meta['evaluation'].get('checks_that_fail'))
    if sh(f'git -C {R} status --porcelain').stdout.strip():
        print('WARNING: /repo left dirty')

def do_table():
    print('| seed | property | what the change does | needs | verdict | failing checks (rules) |')
    print('|---|---|---|---|---|---|')
    for d in sorted(glob.glob(f'{V}/seeded/*/')):
        m = json.load(open(d + 'meta.json')); e = m.get('evaluation', {})
        rules = sorted(set(o.split('|')[0] for o in e.get('obligations', [])))
        print(f"| {m['id']} | {m['property']} | {m['title'][:110]} | {m.get('needs_to_manifest','')[:90]} | {e.get('verdict','?')} | {', '.join(rules)} |")

if __name__ == '__main__':
    if len(sys.argv) < 2: print(__doc__); sys.exit(2)
    {'import': lambda: do_import(sys.argv[2]), 'eval': lambda: do_eval(sys.argv[2:]), 'table': do_table}[sys.argv[1]]()
