#!/opt/veriftools/pyvenv/bin/python
import json, jsonschema, glob, sys
jsonschema.validate(json.load(open('/verif/MANIFEST.json')), json.load(open('/root/.vp/MANIFEST.schema.json')))
es = json.load(open('/root/.vp/EVIDENCE.schema.json'))
m = json.load(open('/verif/MANIFEST.json'))
for c in m['checks']:
    try:
        jsonschema.validate(json.load(open(c['evidence_file'])), es)
    except Exception as e:
        print('BAD', c['evidence_file'], str(e)[:300]); sys.exit(1)
print('manifest+evidence valid:', len(m['checks']), 'checks')
