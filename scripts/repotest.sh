#!/bin/bash
# Developer helper (not a registered check): build + run dnsrocks tests in a given tree.
# usage: repotest.sh [dir=/repo/dnsrocks] [pkgs...]   -- uses -ldflags=-checklinkname=0 so db/dnsserver/fbserver link too
export GOFLAGS=-mod=mod GOPROXY=off GOSUMDB=off GOTOOLCHAIN=local; unset GOWORK
dir=${1:-/repo/dnsrocks}; shift
pkgs=${@:-./...}
cd "$dir" || exit 2
go build -ldflags=-checklinkname=0 ./... || { echo BUILD-FAILED; exit 1; }
go test -vet=off -count=1 -ldflags=-checklinkname=0 -timeout 25m $pkgs 2>&1 | grep -v "no test files" 
exit ${PIPESTATUS[0]}
