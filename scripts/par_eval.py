#!/usr/bin/env python3
"""par_eval.py <width> <dir-with-patch.diff>...: run `dnsverif -prop all` against each patch, each in a scratch worktree
of /repo under /tmp (never /repo itself), <width> at a time. Prints `<dir> <alarming properties>` per patch and a
summary. Development aid for measuring detection (seeded/) and false alarms (benign corpora); not a registered check."""
import os, queue, re, subprocess, sys, threading

width = int(sys.argv[1])
dirs = [d.rstrip('/') for d in sys.argv[2:] if os.path.isfile(os.path.join(d, 'patch.diff'))]
head = subprocess.check_output(['git', '-C', '/repo', 'rev-parse', 'HEAD'], text=True).strip()
q = queue.Queue()
for d in dirs:
    q.put(d)
res = {}
lock = threading.Lock()


def sh(*a, **k):
    return subprocess.run(a, stdout=subprocess.PIPE, stderr=subprocess.STDOUT, text=True, **k)


def worker(k):
    wt = '/tmp/pe%d' % k
    if not os.path.isdir(wt):
        sh('git', '-C', '/repo', 'worktree', 'add', '-q', '--detach', wt, head)
    while True:
        try:
            d = q.get_nowait()
        except queue.Empty:
            break
        sh('git', '-C', wt, 'checkout', '-q', '--detach', head)
        sh('git', '-C', wt, 'checkout', '-q', '--', '.')
        sh('git', '-C', wt, 'clean', '-fdq')
        r = sh('git', '-C', wt, 'apply', os.path.join(d, 'patch.diff'))
        if r.returncode != 0:
            out = 'PATCH-DOES-NOT-APPLY'
            props, lines = ['?'], []
        else:
            r = sh('/verif/bin/dnsverif', '-repo', wt + '/dnsrocks', '-prop', 'all', '-no-evidence')
            props = sorted(set(re.findall(r'^VIOLATION property=(C\d\d)', r.stdout, re.M)))
            lines = [l for l in r.stdout.splitlines() if re.search(r': C\d\d\.[a-z0-9-]+: |UNDECIDED|panic|rror', l) and not l.startswith('VIOLATION')]
            if r.returncode not in (0, 1):
                props.append('EXIT%d' % r.returncode)
        with lock:
            res[d] = (props, lines)
            print(d, ' '.join(props) if props else '-', flush=True)
    sh('git', '-C', '/repo', 'worktree', 'remove', '--force', wt)


ts = [threading.Thread(target=worker, args=(k,)) for k in range(width)]
for t in ts:
    t.start()
for t in ts:
    t.join()
silent = sum(1 for d in dirs if not res[d][0])
print('SUMMARY: %d patches, %d silent, %d alarming' % (len(dirs), silent, len(dirs) - silent))
if os.environ.get('DETAIL'):
    with open(os.environ['DETAIL'], 'w') as f:
        for d in sorted(dirs):
            f.write('== %s %s\n' % (d, ' '.join(res[d][0])))
            for l in res[d][1]:
                f.write('   ' + l[:300] + '\n')
