#!/usr/bin/env python3
"""Regenerates /verif/MANIFEST.json from the table below (developer helper)."""
import json, os
HERE = os.path.dirname(os.path.dirname(os.path.abspath(__file__)))
props = {json.loads(l)["id"]: json.loads(l) for l in open(os.path.join(HERE, "properties.jsonl"))}

# id -> (technique, level text, level note, design ref)
claimed = json.load(open(os.path.join(HERE, "scripts", "claims.json")))
na = json.load(open(os.path.join(HERE, "scripts", "not_applicable.json")))

checks = []
for pid in sorted(claimed):
    c = claimed[pid]
    checks.append({
        "property_id": pid,
        "quick_cmd": f"./check.sh {pid} quick",
        "thorough_cmd": f"./check.sh {pid} thorough",
        "evidence_file": f"/verif/evidence/{pid}.json",
        "replay_cmd_template": "./check.sh --replay {path}",
        "engine": "dnsverif",
        "level_claimed": {"category": "other", "text": c["text"], "design_ref": c.get("design_ref", "DESIGN.md §3 " + pid)},
        "level_note": c["note"],
        "technique": c["technique"],
    })
m = {
    "version": 1,
    "setup_cmd": "cd tool && GOFLAGS=-mod=mod GOPROXY=off GOSUMDB=off GOTOOLCHAIN=local GOWORK=off go build -o ../bin/dnsverif . && (cd /repo/dnsrocks && GOFLAGS=-mod=mod GOPROXY=off GOSUMDB=off GOTOOLCHAIN=local GOWORK=off go list -export -deps ./... >/dev/null 2>&1 || true)",
    "hooks": {
        "guard": "verif",
        "enable": "none needed: the checks read the unmodified source; no hook commits exist",
        "baseline_off_cmd": "cd /repo/dnsrocks && GOFLAGS=-mod=mod go test -vet=off -count=1 -timeout 25m ./... ; cd /repo/dnsrocks/go-cdb-mods && GOFLAGS=-mod=mod go test -vet=off -count=1 ./...",
        "source_commits": [],
        "add_only": True,
    },
    "engines": [{
        "name": "dnsverif",
        "path": "/verif/tool",
        "serves_properties": sorted(claimed),
        "kind_free_text": "repository-specific static analyser (go/packages + go/types + go/ssa + VTA call graph, x/tools v0.29.0): lockset, dominance/must-pass-through, pairing, layout/table agreement, field tables, who-may-call rules; obligations keyed by rule+construct",
    }],
    "checks": checks,
    "notes": "Static analysis only (see DESIGN.md). Every claimed level is 'other': the checks decide structural necessary conditions of each property on /repo's current source; they never execute dnsrocks code. known_findings.json lists open findings (none suppress anything unless listed by rule+construct) and 'fixed:' records.",
    "not_applicable": [{"property_id": k, "reason": v} for k, v in sorted(na.items()) if k not in claimed],
}
json.dump(m, open(os.path.join(HERE, "MANIFEST.json"), "w"), indent=1)
missing = set(props) - set(claimed) - set(na)
if missing:
    raise SystemExit(f"properties neither claimed nor not_applicable: {sorted(missing)}")
print("claimed", sorted(claimed), "na", sorted(k for k in na if k not in claimed))
