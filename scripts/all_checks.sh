#!/bin/bash
# runs every claimed check (quick or $1) and validates manifest + evidence
tier=${1:-quick}
cd /verif
rc=0
for id in $(python3 -c "import json;print(' '.join(c['property_id'] for c in json.load(open('MANIFEST.json'))['checks']))"); do
  out=$(./check.sh $id $tier 2>&1); r=$?
  echo "$out" | tail -1
  if [ $r != 0 ]; then rc=1; echo "$out" | grep -E "VIOLATION|UNDECIDED" | head -5; fi
done
scripts/validate.py || rc=1
exit $rc
