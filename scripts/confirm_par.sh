#!/bin/bash
# confirm_par.sh <seedout-root> <suffix> [width]: confirm every not-yet-confirmed seeded change under <root>/*<suffix>/<letter>/ in parallel
root=${1:-/tmp/seedout}; suf=${2:-r3}; width=${3:-5}
todo=()
for d in $root/*$suf/[a-z]; do
  [ -f $d/patch.diff ] || continue
  ls $d/zz_demo_*_test.go >/dev/null 2>&1 || continue
  [ -f $d/confirm.log ] && grep -q "CONFIRMED" $d/confirm.log && continue
  todo+=("$d")
done
[ ${#todo[@]} = 0 ] && { echo "nothing to confirm"; exit 0; }
printf '%s\n' "${todo[@]}" | xargs -P $width -I{} bash -c 'd={}; n=$(basename $(dirname $d))$(basename $d); /verif/scripts/confirm_seed.sh $d $n'
