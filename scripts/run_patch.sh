#!/bin/bash
# run_patch.sh <patch.diff> [wt-name] : applies the patch in a scratch worktree of /repo HEAD (never /repo itself),
# runs every registered property check once against it (no evidence written), prints diagnostics, removes the worktree.
export GOFLAGS=-mod=mod GOPROXY=off GOSUMDB=off GOTOOLCHAIN=local GOWORK=off
p=$(readlink -f $1); name=${2:-eval$$}
wt=/tmp/evalwt/$name
mkdir -p /tmp/evalwt; rm -rf $wt
git -C /repo worktree add -q --detach $wt HEAD || exit 2
trap 'git -C /repo worktree remove --force $wt >/dev/null 2>&1' EXIT
if ! git -C $wt apply --3way $p 2>/dev/null; then git -C $wt apply $p || { echo "patch does not apply"; exit 2; }; fi
/verif/bin/dnsverif -prop all -no-evidence -verif /verif -repo $wt/dnsrocks 2>&1 | grep -E "VIOLATION|UNDECIDED|: C[0-9][0-9]\.[a-z0-9-]+: |cannot|error" | grep -v "^VIOLATION" | sed "s#$wt/##g" | cut -c1-${CUT:-400}
