#!/bin/bash
# eval_dir.sh <seedout-root> <glob-suffix e.g. bn|r3> : run all checks against every patch in <root>/*<suffix>/*/patch.diff (applied to /repo, reverted), cache result next to the patch as eval.txt
root=$1; suf=$2
for d in $root/*$suf/*; do
  [ -f $d/patch.diff ] || continue
  if [ ! -f $d/eval.txt ] || [ $d/patch.diff -nt $d/eval.txt ] || [ /verif/bin/dnsverif -nt $d/eval.txt ]; then
    /verif/scripts/run_seed.sh $d > $d/eval.txt 2>&1
  fi
  n=$(grep -c . $d/eval.txt)
  echo "$(basename $(dirname $d))/$(basename $d): $n lines: $(grep -o 'C[0-9][0-9]\.[a-z0-9-]*' $d/eval.txt | sort -u | tr '\n' ' ')"
done
