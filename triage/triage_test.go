package triage

import (
	"context"
	"fmt"
	"net"
	"os"
	"path/filepath"
	"sort"
	"strings"
	"testing"
	"time"

	"github.com/facebookincubator/dns/dnsrocks/dnsdata/cdb"
	"github.com/facebookincubator/dns/dnsrocks/dnsdata/rdb"
	"github.com/facebookincubator/dns/dnsrocks/dnsserver"
	"github.com/facebookincubator/dns/dnsrocks/dnsserver/stats"
	"github.com/coredns/coredns/plugin/pkg/dnstest"
	"github.com/facebookincubator/dns/dnsrocks/dnsserver/test"
	"github.com/miekg/dns"
)

type nolog struct{}

func (nolog) Log(_ interface{}, _ *dns.Msg, _ *dns.EDNS0_SUBNET)       {}
func (nolog) LogFailed(_ interface{}, _ *dns.Msg, _ *dns.EDNS0_SUBNET) {}

type backend struct {
	name string
	h    *dnsserver.FBDNSDB
}

func build(t *testing.T, data string) []backend {
	t.Helper()
	dir := t.TempDir()
	in := filepath.Join(dir, "data.in")
	if err := os.WriteFile(in, []byte(data), 0o644); err != nil {
		t.Fatal(err)
	}
	var out []backend
	mk := func(name, driver, path string) {
		h, err := dnsserver.NewFBDNSDBBasic(dnsserver.HandlerConfig{}, dnsserver.DBConfig{Driver: driver, Path: path, ReloadTimeout: 5e9}, dnsserver.CacheConfig{}, &dnsserver.DummyLogger{}, &stats.DummyStats{})
		if err != nil {
			t.Fatal(err)
		}
		if err := h.Load(); err != nil {
			t.Fatal(err)
		}
		out = append(out, backend{name, h})
	}
	cp := filepath.Join(dir, "data.cdb")
	if _, err := cdb.CreateCDB(in, cp, cdb.NewDefaultCreatorOptions()); err != nil {
		t.Fatal(err)
	}
	mk("cdb", "cdb", cp)
	r1 := filepath.Join(dir, "rdb1")
	os.MkdirAll(r1, 0o755)
	if _, err := rdb.CompileToSpecificRDBVersion(in, r1, rdb.CompilationOptions{}); err != nil {
		t.Fatal(err)
	}
	mk("rdb-v1", "rocksdb", r1)
	r2 := filepath.Join(dir, "rdb2")
	os.MkdirAll(r2, 0o755)
	if _, err := rdb.CompileToSpecificRDBVersion(in, r2, rdb.CompilationOptions{UseV2KeySyntax: true}); err != nil {
		t.Fatal(err)
	}
	mk("rdb-v2", "rocksdb", r2)
	return out
}

func render(m *dns.Msg) string {
	if m == nil {
		return "<no response>"
	}
	var sb strings.Builder
	fmt.Fprintf(&sb, "rcode=%s aa=%v\n", dns.RcodeToString[m.Rcode], m.Authoritative)
	sec := func(n string, rrs []dns.RR) {
		var l []string
		for _, rr := range rrs {
			l = append(l, fmt.Sprintf("%s %s\n", n, rr.String()))
		}
		sort.Strings(l) // value order under one key is backend specific
		sb.WriteString(strings.Join(l, ""))
	}
	sec("AN", m.Answer)
	sec("NS", m.Ns)
	sec("AR", m.Extra)
	return sb.String()
}

func ask(b backend, qtype, name, ip, subnet string) (s string) {
	defer func() {
		if r := recover(); r != nil {
			s = fmt.Sprintf("PANIC: %v", r)
		}
	}()
	rec, err := b.h.QuerySingle(qtype, name, ip, subnet, 8)
	if err != nil {
		return "error: " + err.Error()
	}
	return render(rec.Msg)
}

// same asks all three backends and demands identical answers; returns the common answer
func same(t *testing.T, bs []backend, qtype, name, ip, subnet string) string {
	t.Helper()
	first := ask(bs[0], qtype, name, ip, subnet)
	for _, b := range bs[1:] {
		got := ask(b, qtype, name, ip, subnet)
		if got != first {
			t.Errorf("%s %s ip=%s ecs=%s: %s differs from %s\n--- %s\n%s--- %s\n%s", qtype, name, ip, subnet, b.name, bs[0].name, bs[0].name, first, b.name, got)
		}
	}
	return first
}

// F3: a wildcard of the parent zone must not answer below a nested zone.
func TestF3WildcardAcrossZoneCut(t *testing.T) {
	data := "Zcom,a.ns.com,dns.com,1,7200,1800,604800,120,120,,\n&com,,a.ns.com,172800,,\n+*.com,9.9.9.9,60,,\n" +
		"Zexample.com,a.ns.example.com,dns.example.com,1,7200,1800,604800,120,120,,\n&example.com,,a.ns.example.com,172800,,\n+www.example.com,1.1.1.1,60,,\n"
	bs := build(t, data)
	got := same(t, bs, "A", "nx.example.com", "1.1.1.1", "")
	if !strings.Contains(got, "NXDOMAIN") {
		t.Errorf("expected NXDOMAIN, got\n%s", got)
	}
	got = same(t, bs, "A", "nx.com", "1.1.1.1", "")
	if !strings.Contains(got, "9.9.9.9") {
		t.Errorf("expected wildcard answer, got\n%s", got)
	}
}

// F4: located client below a delegation: NS set must not be duplicated / foreign rows served.
func TestF4CacheExact(t *testing.T) {
	var data string
	data = "Zexample.com,a.ns.example.com,dns.example.com,1,7200,1800,604800,120,120,,\n&example.com,,a.ns.example.com,172800,,\n" +
		"&sub.example.com,,ns1.sub.example.com,172800,,\n&sub.example.com,,ns2.sub.example.com,172800,,\n" +
		"+ns1.sub.example.com,5.5.5.1,60,,\n+ns2.sub.example.com,5.5.5.2,60,,\n" +
		"+www.example.com,1.1.1.1,60,,\n+www.example.com,2.2.2.2,60,,\\000\\001\n+www.example.com,3.3.3.3,60,,\\000\\002\n" +
		"Mexample.com,ma\nM*.example.com,ma\n%\\000\\001,10.0.0.0/8,ma\n%\\000\\002,20.0.0.0/8,ma\n"
	bs := build(t, data)
	for _, ip := range []string{"10.1.1.1", "20.1.1.1", "30.1.1.1"} {
		same(t, bs, "A", "x.sub.example.com", ip, "")
		same(t, bs, "A", "www.example.com", ip, "")
		same(t, bs, "NS", "sub.example.com", ip, "")
		same(t, bs, "A", "nx.example.com", ip, "")
	}
	got := same(t, bs, "A", "x.sub.example.com", "20.1.1.1", "")
	if strings.Count(got, "ns1.sub.example.com.") != 2 { // once in NS, once as glue owner
		t.Errorf("NS set duplicated or missing:\n%s", got)
	}
}

// F2: DS query at a delegated root must not panic.
func TestF2RootDS(t *testing.T) {
	bs := build(t, "&,,a.ns.com,172800,,\n+a.ns.com,1.2.3.4,60,,\n")
	got := same(t, bs, "DS", ".", "1.1.1.1", "")
	if strings.Contains(got, "PANIC") {
		t.Errorf("%s", got)
	}
}

// F7: CDB with only ::/0 in the ECS map, IPv4 client subnet: scope must be <= 32.
func TestF7ScopeRange(t *testing.T) {
	data := "Zexample.com,a.ns.example.com,dns.example.com,1,7200,1800,604800,120,120,,\n&example.com,,a.ns.example.com,172800,,\n" +
		"+www.example.com,1.1.1.1,60,,\n+www.example.com,2.2.2.2,60,,\\000\\001\n" +
		"8example.com,ea\n8*.example.com,ea\n%\\000\\001,::/0,ea\n"
	bs := build(t, data)
	for _, b := range bs {
		rec, err := b.h.QuerySingle("A", "www.example.com", "9.9.9.9", "10.1.2.0/24", 1)
		if err != nil {
			t.Fatal(err)
		}
		o := rec.Msg.IsEdns0()
		if o == nil {
			t.Fatalf("%s: no OPT", b.name)
		}
		for _, opt := range o.Option {
			if e, ok := opt.(*dns.EDNS0_SUBNET); ok {
				if e.SourceScope > 32 {
					t.Errorf("%s: scope %d for an IPv4 client subnet", b.name, e.SourceScope)
				}
				t.Logf("%s: scope=%d answer=%v", b.name, e.SourceScope, rec.Msg.Answer)
			}
		}
	}
}

// F5: wildcard map at the queried name itself (v2 closest-key walk).
func TestF5WildcardMapAtQueriedName(t *testing.T) {
	data := "Zexample.com,a.ns.example.com,dns.example.com,1,7200,1800,604800,120,120,,\n&example.com,,a.ns.example.com,172800,,\n" +
		"+wm.example.com,1.1.1.1,60,,\n+wm.example.com,2.2.2.2,60,,\\000\\001\n" +
		"+a.wm.example.com,1.1.1.1,60,,\n+a.wm.example.com,2.2.2.2,60,,\\000\\001\n" +
		"+b.a.wm.example.com,1.1.1.1,60,,\n+b.a.wm.example.com,2.2.2.2,60,,\\000\\001\n" +
		"+zz.example.com,1.1.1.1,60,,\n+zz.example.com,2.2.2.2,60,,\\000\\001\n" +
		"+example.com,1.1.1.1,60,,\n+example.com,2.2.2.2,60,,\\000\\001\n" +
		"8*.wm.example.com,ea\nM*.wm.example.com,ma\n8x.zz.example.com,ea\n%\\000\\001,10.0.0.0/8,ea\n%\\000\\001,10.0.0.0/8,ma\n"
	bs := build(t, data)
	for _, name := range []string{"wm.example.com", "a.wm.example.com", "b.a.wm.example.com", "zz.example.com", "example.com", "x.zz.example.com", "q.x.zz.example.com"} {
		for _, q := range [][2]string{{"10.1.1.1", ""}, {"9.9.9.9", "10.1.2.0/24"}, {"9.9.9.9", ""}} {
			got := same(t, bs, "A", name, q[0], q[1])
			if strings.Contains(got, "no response") || strings.Contains(got, "PANIC") {
				t.Errorf("%s %v: %s", name, q, got)
			}
		}
	}
}

// F15: ECS address with host bits set beyond the source prefix length.
func TestF15EcsHostBits(t *testing.T) {
	data := "Zexample.com,a.ns.example.com,dns.example.com,1,7200,1800,604800,120,120,,\n&example.com,,a.ns.example.com,172800,,\n" +
		"+www.example.com,1.1.1.1,60,,\\000\\001\n+www.example.com,2.2.2.2,60,,\\000\\002\n+www.example.com,3.3.3.3,60,,\\000\\003\n+www.example.com,9.9.9.9,60,,\n" +
		"8example.com,ea\n8*.example.com,ea\n%\\000\\001,10.1.0.0/16,ea\n%\\000\\002,10.1.2.0/24,ea\n%\\000\\003,10.1.3.0/24,ea\n"
	bs := build(t, data)
	for _, ecs := range []string{"10.1.3.0/23", "10.1.2.0/23", "10.1.3.77/24", "10.1.3.77/16", "10.1.255.255/12"} {
		// MakeOPTWithECS keeps the address as given (host bits included)
		got := same(t, bs, "A", "www.example.com", "9.9.9.9", ecs)
		t.Logf("%s -> %s", ecs, strings.ReplaceAll(got, "\n", " | "))
	}
}

// F12: subnets whose network address is 0.0.0.0 but which are not /0.
func TestF12ZeroNetworkNotDefault(t *testing.T) {
	data := "Zexample.com,a.ns.example.com,dns.example.com,1,7200,1800,604800,120,120,,\n&example.com,,a.ns.example.com,172800,,\n" +
		"+www.example.com,1.1.1.1,60,,\\000\\001\n+www.example.com,2.2.2.2,60,,\\000\\002\n+www.example.com,3.3.3.3,60,,\\000\\003\n+www.example.com,9.9.9.9,60,,\n" +
		"8example.com,ea\n8*.example.com,ea\nMexample.com,ma\nM*.example.com,ma\n" +
		"%\\000\\001,0.0.0.0/8,ea\n%\\000\\002,10.0.0.0/8,ea\n" +
		"%\\000\\001,0.0.0.0/1,ma\n%\\000\\003,128.0.0.0/1,ma\n%\\000\\002,10.0.0.0/8,ma\n"
	bs := build(t, data)
	for _, ecs := range []string{"11.1.1.0/24", "0.1.1.0/24", "10.1.1.0/24", "200.1.1.0/24", "9.0.0.0/8"} {
		got := same(t, bs, "A", "www.example.com", "9.9.9.9", ecs)
		t.Logf("ecs %s -> %s", ecs, strings.ReplaceAll(got, "\n", " | "))
	}
	for _, ip := range []string{"11.1.1.1", "0.1.1.1", "10.1.1.1", "200.1.1.1", "127.0.0.1", "128.0.0.1"} {
		got := same(t, bs, "A", "www.example.com", ip, "")
		t.Logf("resolver %s -> %s", ip, strings.ReplaceAll(got, "\n", " | "))
	}
}

// rdb.get key aliasing: the same key looked up twice in one request through a reused key buffer.
func TestGetKeyAliasing(t *testing.T) {
	data := "Zexample.com,a.ns.example.com,dns.example.com,1,7200,1800,604800,120,120,,\n&example.com,,a.ns.example.com,172800,,\n" +
		"@example.com,,mx1.example.com,10,60,,\n@example.com,,mx1.example.com,20,60,,\n@example.com,,mx1.example.com,30,60,,\n" +
		"+mx1.example.com,1.1.1.1,60,,\\000\\001\n" +
		"Mexample.com,ma\nM*.example.com,ma\n%\\000\\001,10.0.0.0/8,ma\n"
	bs := build(t, data)
	for _, ip := range []string{"10.1.1.1", "20.1.1.1"} {
		got := same(t, bs, "MX", "example.com", ip, "")
		t.Logf("%s -> %s", ip, strings.ReplaceAll(got, "\n", " | "))
	}
}

// F16: batch compiler with BatchNumParallel == 0 ("unlimited", the CLI default) must terminate.
func TestF16BatchNumParallelZero(t *testing.T) {
	dir := t.TempDir()
	in := filepath.Join(dir, "data.in")
	var sb strings.Builder
	sb.WriteString("Zexample.com,a.ns.example.com,dns.example.com,1,7200,1800,604800,120,120,,\n")
	for i := 0; i < 200; i++ {
		fmt.Fprintf(&sb, "+h%d.example.com,1.1.1.%d,60,,\n", i, i%250)
	}
	os.WriteFile(in, []byte(sb.String()), 0o644)
	out := filepath.Join(dir, "rdb")
	os.MkdirAll(out, 0o755)
	done := make(chan error, 1)
	go func() {
		_, err := rdb.CompileToSpecificRDBVersion(in, out, rdb.CompilationOptions{BatchSize: 10, BatchNumParallel: 0})
		done <- err
	}()
	select {
	case err := <-done:
		if err != nil {
			t.Fatal(err)
		}
	case <-time.After(20 * time.Second):
		t.Fatal("compilation with BatchNumParallel=0 did not finish in 20s (deadlock)")
	}
}

// Root wildcard map: "M*." applies to every name.
func TestRootWildcardMap(t *testing.T) {
	data := "Zexample.com,a.ns.example.com,dns.example.com,1,7200,1800,604800,120,120,,\n&example.com,,a.ns.example.com,172800,,\n" +
		"+www.example.com,1.1.1.1,60,,\\000\\001\n+www.example.com,9.9.9.9,60,,\n" +
		"M*.,ma\n8*.,ea\n%\\000\\001,10.0.0.0/8,ma\n%\\000\\001,10.0.0.0/8,ea\n"
	bs := build(t, data)
	for _, q := range [][2]string{{"10.1.1.1", ""}, {"9.9.9.9", "10.1.2.0/24"}, {"20.1.1.1", ""}} {
		got := same(t, bs, "A", "www.example.com", q[0], q[1])
		t.Logf("%v -> %s", q, strings.ReplaceAll(got, "\n", " | "))
	}
}

// F18: IPv4-mapped IPv6 client subnet (family 2) must respect the client's own prefix length.
func TestF18MappedV4ClientSubnet(t *testing.T) {
	data := "Zexample.com,a.ns.example.com,dns.example.com,1,7200,1800,604800,120,120,,\n&example.com,,a.ns.example.com,172800,,\n" +
		"+www.example.com,1.1.1.1,60,,\\000\\001\n+www.example.com,9.9.9.9,60,,\n" +
		"8example.com,ea\n8*.example.com,ea\n%\\000\\001,10.1.0.0/16,ea\n"
	bs := build(t, data)
	for _, b := range bs {
		for _, tc := range []struct {
			mask uint8
			want string
		}{{104, "9.9.9.9"}, {120, "1.1.1.1"}} {
			req := new(dns.Msg)
			req.SetQuestion("www.example.com.", dns.TypeA)
			o := new(dns.OPT)
			o.Hdr.Name, o.Hdr.Rrtype = ".", dns.TypeOPT
			e := &dns.EDNS0_SUBNET{Code: dns.EDNS0SUBNET, Family: 2, SourceNetmask: tc.mask, Address: net.ParseIP("::ffff:10.1.3.0")}
			o.Option = append(o.Option, e)
			req.Extra = []dns.RR{o}
			rec := dnstest.NewRecorder(&test.ResponseWriterCustomRemote{RemoteIP: "9.9.9.9"})
			if _, err := b.h.ServeDNSWithRCODE(dnsserver.WithMaxAnswer(context.TODO(), 8), rec, req); err != nil {
				t.Fatal(err)
			}
			got := render(rec.Msg)
			hasLoc := strings.Contains(got, "1.1.1.1")
			if hasLoc != (tc.want == "1.1.1.1") {
				t.Errorf("%s: ::ffff:10.1.3.0/%d: located answer=%v, want %s\n%s", b.name, tc.mask, hasLoc, tc.want, got)
			}
		}
	}
}
