#!/bin/bash
export GOFLAGS=-mod=mod GOPROXY=off GOSUMDB=off GOTOOLCHAIN=local; unset GOWORK
repo=${REPO:-/repo/dnsrocks}
d=$(mktemp -d /tmp/triage.XXXX)
cp /verif/triage/*.go /verif/triage/go.mod "$d"/ && cp $repo/go.sum "$d"/
sed -i "s|=> /repo/dnsrocks|=> $repo|g" "$d/go.mod"
(cd "$d" && go test -count=1 -ldflags=-checklinkname=0 "$@" ./... 2>&1 | tail -60)
rc=$?
rm -rf "$d"
exit $rc
