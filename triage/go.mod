module triage

go 1.18

require github.com/facebookincubator/dns/dnsrocks v0.0.0

replace github.com/facebookincubator/dns/dnsrocks => /repo/dnsrocks

replace github.com/repustate/go-cdb => /repo/dnsrocks/go-cdb-mods
